"""Stand-in job for C17: kingdon's Polynomial / RationalPolynomial against exact rational-function arithmetic."""
import random
import json
from fractions import Fraction as F

from standins.oracle import Poly


def den_poly(p):
    """exact denotation of a kingdon Polynomial as an oracle Poly (reads only .args)"""
    tot = Poly()
    for mono in p.args:
        t = Poly.const(1)
        for f in mono:
            t = t * (Poly.var(f) if isinstance(f, str) else Poly.const(F(f)))
        tot = tot + t
    return tot


def den_rat(r):
    from kingdon.polynomial import RationalPolynomial, Polynomial
    if isinstance(r, RationalPolynomial):
        return den_poly(r.numer), den_poly(r.denom)
    if isinstance(r, Polynomial):
        return den_poly(r), Poly.const(1)
    return Poly.const(F(r)), Poly.const(1)


def rat_eq(a, b):
    return (a[0] * b[1] - b[0] * a[1]) == Poly()


def job_polynomial(job):
    from kingdon.polynomial import Polynomial, RationalPolynomial, compare
    import sympy
    rng = random.Random(job.get('seed', 0))
    out = {'evaluations': 0, 'failures': [], 'samples': [], 'configs': 1}
    seen = {}

    def fail(rec):
        c = (rec['what'], str(rec.get('error'))[:40])
        seen[c] = seen.get(c, 0) + 1
        if seen[c] <= 2:
            out['failures'].append(rec)
    # names as code generation makes them (operand letter + blade digits); with hex-letter blade names they can be prefixes and
    # concatenations of one another: a * aab and aa * ab are different monomials
    names = ['a', 'a1', 'a12', 'b', 'b2', 'c', 'aa', 'ab', 'aab']
    distinct = set()
    for it in range(job.get('trees', 200)):
        # random expression tree; value tracked both as kingdon object and as exact (num, den) pair
        def leaf():
            r = rng.random()
            if r < 0.7:
                n = rng.choice(names)
                return RationalPolynomial.fromname(n), (Poly.var(n), Poly.const(1)), n
            v = rng.randint(-3, 4)
            return v, (Poly.const(v), Poly.const(1)), str(v)

        def gen(depth):
            if depth == 0:
                return leaf()
            op = rng.choice(['+', '-', '*', '*', 'neg', '/', '**', 'inv', '+', '*'])
            if op in ('neg', 'inv', '**'):
                x, ex, sx = gen(depth - 1)
                if not isinstance(x, RationalPolynomial):
                    x, ex = RationalPolynomial([[x]]) if x != 0 else RationalPolynomial([]), ex
                if op == 'neg':
                    return -x, (Poly() - ex[0], ex[1]), f'(-{sx})'
                if op == 'inv':
                    if ex[0] == Poly():
                        return x, ex, sx
                    return x.inv(), (ex[1], ex[0]), f'inv({sx})'
                k = rng.choice([2, 3, -1, -2])
                if k < 0 and ex[0] == Poly():
                    k = -k
                num, den = (ex[0] ** k, ex[1] ** k) if k > 0 else (ex[1] ** -k, ex[0] ** -k)
                return x ** k, (num, den), f'({sx})**{k}'
            x, ex, sx = gen(depth - 1)
            y, ey, sy = gen(depth - 1)
            if not isinstance(x, RationalPolynomial) and not isinstance(y, RationalPolynomial):
                x = RationalPolynomial([[x]]) if x != 0 else RationalPolynomial([])
            if op == '+':
                return x + y, (ex[0] * ey[1] + ey[0] * ex[1], ex[1] * ey[1]), f'({sx} + {sy})'
            if op == '-':
                return x - y, (ex[0] * ey[1] - ey[0] * ex[1], ex[1] * ey[1]), f'({sx} - {sy})'
            if op == '*':
                return x * y, (ex[0] * ey[0], ex[1] * ey[1]), f'({sx} * {sy})'
            if ey[0] == Poly() or not isinstance(y, RationalPolynomial):
                # division by a plain number goes through Python's float division (1 / n): not exact, not part of this check
                return x + y, (ex[0] * ey[1] + ey[0] * ex[1], ex[1] * ey[1]), f'({sx} + {sy})'
            return x / y, (ex[0] * ey[1], ex[1] * ey[0]), f'({sx} / {sy})'
        try:
            val, exp, src = gen(rng.choice([1, 2, 2, 3, 3, 4]))
        except ZeroDivisionError:
            continue
        except Exception as e:
            out['evaluations'] += 1
            import traceback
            tb = traceback.extract_tb(e.__traceback__)
            fail({'what': 'arithmetic raised', 'error': type(e).__name__ + ': ' + str(e)[:100], 'at': [f'{t.filename.split("/")[-1]}:{t.lineno}' for t in tb[-3:]]})
            continue
        out['evaluations'] += 1
        distinct.add(src)
        try:
            got = den_rat(val)
        except Exception as e:
            fail({'what': 'result is not a polynomial object', 'expr': src, 'type': type(val).__name__, 'error': repr(e)[:100]})
            continue
        if not rat_eq(got, exp):
            fail({'what': 'result denotes a different rational function', 'expr': src, 'got': [str(got[0])[:150], str(got[1])[:150]], 'expected': [str(exp[0])[:150], str(exp[1])[:150]]})
        if got[1] == Poly():
            fail({'what': 'result has an identically zero denominator', 'expr': src})
        # zero tests are exact
        is_zero = exp[0] == Poly()
        try:
            if bool(val) == is_zero and not isinstance(val, int):
                fail({'what': 'truthiness is not an exact zero test', 'expr': src, 'bool': bool(val), 'denotes_zero': is_zero, 'args': str(getattr(getattr(val, 'numer', val), 'args', None))[:120]})
            if (val == 0) != is_zero:
                fail({'what': '== 0 is not an exact zero test', 'expr': src, 'denotes_zero': is_zero})
        except Exception as e:
            fail({'what': 'zero test raised', 'expr': src, 'error': repr(e)[:100]})
        # == never equates objects denoting different functions
        val2, exp2, src2 = gen(rng.choice([1, 2])) if rng.random() < 0.7 else (val, exp, src)
        try:
            if isinstance(val, RationalPolynomial) and isinstance(val2, RationalPolynomial) and (val == val2) and not rat_eq(den_rat(val), den_rat(val2)):
                fail({'what': '== equates objects denoting different functions', 'lhs': src, 'rhs': src2})
        except ZeroDivisionError:
            pass
        # conversion to sympy preserves the function
        if isinstance(val, RationalPolynomial) and rng.random() < 0.3:
            try:
                sv = val.tosympy()
                env = {n: F(rng.randint(1, 7), rng.randint(1, 5)) for n in names}
                dn = got[1].subs(env)
                if dn != 0:
                    want = got[0].subs(env) / dn
                    have = sympy.Rational(sympy.simplify(sympy.sympify(sv).subs({sympy.Symbol(n): sympy.Rational(v.numerator, v.denominator) for n, v in env.items()})))
                    if F(int(have.p), int(have.q)) != want:
                        fail({'what': 'tosympy() denotes a different function', 'expr': src})
            except ZeroDivisionError:
                pass
            except Exception as e:
                fail({'what': 'tosympy() raised', 'expr': src, 'error': repr(e)[:100]})
        if len(out['samples']) < 4 and rng.random() < 0.03:
            out['samples'].append({'expr': src, 'numer_terms': len(got[0].c), 'denom_terms': len(got[1].c)})
    # conversion to sympy with coefficients that are not small fractions (float coefficients arise from division by numbers:
    # x / 5040, chained divisions): the converted expression evaluates to the same number
    for c in (1 / 5040., 1 / 1001., 1 / 40320., 0.123456789, 1e-5, 2.5e-7, 1 / 576., 7 / 1152., 1234.56789, -3 / 4099.):
        for c2 in (1, 1 / 1013.):
            out['evaluations'] += 1
            try:
                rp = RationalPolynomial([[c, 'a'], [c * 3, 'a', 'b']], [[c2, 'b']])
                have = float(sympy.sympify(rp.tosympy()).subs({sympy.Symbol('a'): 3, sympy.Symbol('b'): 5}))
                want = (c * 3 + c * 3 * 3 * 5) / (c2 * 5)
                if abs(have - want) > 1e-9 * abs(want):
                    fail({'what': 'tosympy() of a polynomial with float coefficients denotes a different function', 'coefficient': c, 'denominator_coefficient': c2,
                          'got': have, 'expected': want})
            except Exception as e:
                fail({'what': 'tosympy() raised', 'coefficient': c, 'error': repr(e)[:100]})
    # zero tests are exact for coefficients of every magnitude: a tiny float is not zero (a tolerance would let code generation
    # discard small but non-zero coefficients, e.g. the 1/k! of a series or a unit conversion factor)
    for c in (2.0 ** -40, -2.0 ** -50, 2.0 ** -60, 1e-15, -1e-20, 3e-33, 2.0 ** -200, 5e-324):
        cases = [('Polynomial([[c]])', lambda: Polynomial([[c]])), ("Polynomial([[c, 'a']])", lambda: Polynomial([[c, 'a']])),
                 ("RationalPolynomial([[c, 'a'], [c, 'b']])", lambda: RationalPolynomial([[c, 'a'], [c, 'b']])),
                 ("c * a (RationalPolynomial)", lambda: RationalPolynomial.fromname('a') * c),
                 ("a + c - a", lambda: RationalPolynomial.fromname('a') + c - RationalPolynomial.fromname('a')),
                 ("(c*a) * b", lambda: (RationalPolynomial.fromname('a') * c) * RationalPolynomial.fromname('b'))]
        for label, mk in cases:
            out['evaluations'] += 1
            try:
                z = mk()
                if not bool(z) or (z == 0) or not (z != 0):
                    fail({'what': 'zero test is not exact: a polynomial with a small non-zero coefficient tests as zero', 'expr': label, 'coefficient': c,
                          'bool': bool(z), 'eq0': bool(z == 0)})
            except Exception as e:
                fail({'what': 'zero test raised', 'expr': label, 'coefficient': c, 'error': repr(e)[:100]})
    # compare(): a total order on monomials consistent with equality of variable lists
    monos = [[rng.choice([1, -2, 3, 0.5])] + sorted(rng.choices(names, k=rng.randint(0, 3))) for _ in range(40)]
    for a in monos:
        for b in monos:
            out['evaluations'] += 1
            c1, c2 = compare(a, b), compare(b, a)
            if (c1 == 0) != (a[1:] == b[1:]) or (c1 < 0) != (c2 > 0):
                fail({'what': 'compare is not an antisymmetric order consistent with equality of variable lists', 'a': a, 'b': b, 'got': [c1, c2]})
            for c in monos[:8]:
                if compare(a, b) < 0 and compare(b, c) < 0 and not compare(a, c) < 0:
                    fail({'what': 'compare is not transitive', 'a': a, 'b': b, 'c': c})
    # ring laws as zero tests: both sides denote the same function but are computed along different routes (different
    # intermediate term orders), so their difference must be recognised as zero by == 0 and by truthiness
    def rnd_poly(depth=2):
        if depth == 0 or rng.random() < 0.25:
            return RationalPolynomial.fromname(rng.choice(names)) if rng.random() < 0.8 else RationalPolynomial([[rng.choice([1, 2, -1, 3])]])
        a, b = rnd_poly(depth - 1), rnd_poly(depth - 1)
        return a + b if rng.random() < 0.6 else a * b
    laws = [('p*(q+r) == p*q + p*r', lambda p_, q, r: p_ * (q + r) - (p_ * q + p_ * r)),
            ('(q+r)*p == q*p + r*p', lambda p_, q, r: (q + r) * p_ - (q * p_ + r * p_)),
            ('p*q == q*p', lambda p_, q, r: p_ * q - q * p_),
            ('(p+q)*(p-q) == p*p - q*q', lambda p_, q, r: (p_ + q) * (p_ - q) - (p_ * p_ - q * q)),
            ('(p*q)*r == p*(q*r)', lambda p_, q, r: (p_ * q) * r - p_ * (q * r)),
            ('(p+q)+r == p+(q+r)', lambda p_, q, r: ((p_ + q) + r) - (p_ + (q + r))),
            ('p/q*q == p', lambda p_, q, r: (p_ / q) * q - p_ if q != 0 else RationalPolynomial([]))]
    for it in range(max(40, job.get('trees', 200) // 3)):
        p_, q, r = rnd_poly(), rnd_poly(), rnd_poly()
        for name, f in laws:
            out['evaluations'] += 1
            try:
                z = f(p_, q, r)
                dz = den_rat(z)
                if not rat_eq(dz, (Poly(), Poly.const(1))):
                    fail({'what': 'ring law violated (value)', 'law': name, 'p': str(p_)[:120], 'q': str(q)[:120], 'r': str(r)[:120]})
                elif bool(z) or not (z == 0):
                    fail({'what': 'zero test is not exact: a difference denoting the zero function is not recognised as zero', 'law': name,
                          'p': str(getattr(p_.numer, 'args', p_))[:120], 'q': str(getattr(q.numer, 'args', q))[:120], 'r': str(getattr(r.numer, 'args', r))[:120],
                          'result_numer_args': str(getattr(getattr(z, 'numer', z), 'args', None))[:200]})
            except ZeroDivisionError:
                pass
            except Exception as e:
                fail({'what': 'ring-law evaluation raised', 'law': name, 'error': type(e).__name__ + ': ' + str(e)[:100]})
    out['distinct'] = len(distinct)
    return out


def job_inverse_symbolic(job):
    """Closed-form inverses as polynomial identities: for a symbolic operand x (one variable per stored blade) the real
    codegen_inv(x, symbolic=True) returns (num, denom); x*num and num*x must equal the scalar denom *as rational functions*,
    i.e. for every value of the coefficients.  Bound: the key patterns enumerated / sampled."""
    import itertools
    from kingdon.codegen import codegen_inv
    from kingdon.polynomial import RationalPolynomial
    from standins.native import make_algebra
    rng = random.Random(job.get('seed', 0))
    out = {'evaluations': 0, 'failures': [], 'samples': [], 'configs': 0}
    n = 0
    for cfg in job['configs']:
        try:
            alg = make_algebra(cfg)
        except Exception as e:
            out['failures'].append({'config': cfg, 'what': 'constructing an admissible algebra raised', 'error': repr(e)[:100]})
            continue
        out['configs'] += 1
        N = 2 ** alg.d
        pats = []
        for size in cfg.get('sizes', [1, 2, 3]):
            allp = list(itertools.combinations(range(N), size))
            lim = cfg.get('per_size', 40)
            pats += allp if len(allp) <= lim else rng.sample(allp, lim)
        for ks in pats:
            ks = list(ks)
            rng.shuffle(ks)
            x = alg.multivector(name='x', keys=tuple(ks), symbolcls=RationalPolynomial.fromname)
            out['evaluations'] += 1
            n += 1
            try:
                num, denom = codegen_inv(x, symbolic=True)
            except Exception as e:
                out['failures'].append({'config': cfg, 'keys': ks, 'what': 'codegen_inv raised', 'error': repr(e)[:120]})
                continue
            dn = den_rat(denom)
            for side, prod in (('x*num', x * num), ('num*x', num * x)):
                bad = None
                for k, v in zip(prod.keys(), prod.values()):
                    pv = den_rat(v)
                    if k == 0:
                        if not rat_eq(pv, dn):
                            bad = 'scalar part differs from the denominator'
                    elif pv[0] != Poly():
                        bad = f'blade {alg.bin2canon[k]} of {side} is not identically zero'
                if 0 not in prod.keys() and dn[0] != Poly():
                    bad = 'scalar part missing'
                if bad and len(out['failures']) < 400:
                    out['failures'].append({'config': cfg, 'keys': ks, 'what': f'{side} != denominator (as polynomials in the coefficients): {bad}'})
        if len(out['samples']) < 2:
            out['samples'].append({'config': cfg, 'patterns': len(pats), 'example_keys': pats[-1] if pats else None})
    out['distinct'] = n
    return out


# ------------------------------------------------------------------ replay of refuted generic-element obligations
def job_gcase(job):
    """Directed native replay for a refuted polynomial identity of contracts/inverse_c.py: the real operator on operands that
    store exactly the blades of the failing shape, with random non-zero rational coefficients, against the reference product
    (oracle.py).  A polynomial that is not identically zero is non-zero at a random point with overwhelming probability."""
    import math
    from standins.native import make_algebra, mv_from, showmv, ref_binary, ref_unary, BINARY, UNARY, _call, show
    from standins import oracle as O
    rng = random.Random(job.get('seed', 0))
    alg = make_algebra(job['config'])
    fr = O.Frame(alg)
    sig = fr.sig
    name, xk, yk = job['op'], list(job['x_keys']), job.get('y_keys')
    out = {'evaluations': 0, 'failures': [], 'samples': []}

    def vals(keys):
        return [F(rng.choice([-1, 1]) * rng.randint(1, 9), rng.choice([1, 1, 2, 3])) for _ in keys]

    def close(A, B):
        A, B = O.nz(A), O.nz(B)
        for k in set(A) | set(B):
            a, b = A.get(k, 0), B.get(k, 0)
            if isinstance(a, float) or isinstance(b, float):
                if abs(float(a) - float(b)) > 1e-9 * max(1.0, abs(float(b))):
                    return False
            elif a != b:
                return False
        return True
    for it in range(job.get('tries', 6)):
        xv = vals(xk)
        x, X = mv_from(alg, xk, xv), fr.to_ref(xk, xv)
        rec = {'op': name, 'config': job['config'], 'a': showmv(xk, xv)}
        y = Y = None
        if yk is not None:
            yv = vals(yk)
            y, Y = mv_from(alg, list(yk), yv), fr.to_ref(list(yk), yv)
            rec['b'] = showmv(list(yk), yv)
        out['evaluations'] += 1
        try:
            if name in ('inv',):
                G = fr.mv_to_ref(_call(alg, 'inv', x))
                ok = close(O.gp(X, G, sig), {0: 1}) and close(O.gp(G, X, sig), {0: 1})
                rec['what'] = 'x * inv(x) or inv(x) * x is not 1'
                got = G
            elif name == 'div':
                G = fr.mv_to_ref(_call(alg, 'div', x, y))
                ok = close(O.gp(G, Y, sig), X)
                rec['what'] = '(x / y) * y is not x'
                got = G
            elif name in ('outerexp', 'outersin', 'outercos'):
                G = fr.mv_to_ref(getattr(x, name)())
                want, term = {}, {0: F(1)}
                for k in range(0, alg.d + 1):
                    if k:
                        term = O.op(term, X, sig)
                    if (name == 'outersin' and k % 2 == 0) or (name == 'outercos' and k % 2 == 1):
                        continue
                    want = O.add(want, O.scale(term, F(1, math.factorial(k))))
                ok = close(G, want)
                rec['what'] = f'{name}(x) is not the finite sum of wedge powers / k!'
                rec['expected'] = {str(k): show(v) for k, v in O.nz(want).items()}
                got = G
            elif name in BINARY and y is not None:
                G = fr.mv_to_ref(_call(alg, name, x, y))
                want = ref_binary(fr, name, X, Y)
                ok = close(G, want)
                rec['expected'] = {str(k): show(v) for k, v in O.nz(want).items()}
                got = G
            elif name in UNARY:
                G = fr.mv_to_ref(_call(alg, name, x))
                want = ref_unary(fr, name, X)
                ok = close(G, want)
                rec['expected'] = {str(k): show(v) for k, v in O.nz(want).items()}
                got = G
            else:
                return dict(out, note=f'no directed replay for operator {name}')
        except ZeroDivisionError:
            continue            # a singular operand: not a witness either way
        if not ok:
            rec['got'] = {str(k): show(v) for k, v in O.nz(got).items()}
            out['failures'].append(rec)
            break
        if len(out['samples']) < 2:
            out['samples'].append(rec)
    return out


# ------------------------------------------------------------------ C04: short-lived operands, small pool of patterns
def job_fresh_rounds(job):
    """Every round rebuilds its operands (grade parts of one dense element, and literal sub-patterns) and lets them die again, alternating
    between patterns with the same number of blades; every result is compared with the blade-by-blade rule.  A result may depend on the
    operand's stored blades and coefficients only -- not on which operands existed before, nor on where they lived."""
    import gc
    from standins import oracle as O
    from standins.native import make_algebra, mv_from, frac_vals, showmv
    rng = random.Random(job.get('seed', 0))
    out = {'evaluations': 0, 'failures': [], 'samples': [], 'configs': 0}
    rules = {'neg': lambda A: O.scale(A, -1), 'reverse': O.rev, 'involute': O.invo, 'conjugate': O.conj}
    pats = set()
    for cfg in job['configs']:
        alg = make_algebra(cfg)
        fr = O.Frame(alg)
        out['configs'] += 1
        N = 2 ** alg.d
        allk = tuple(range(N))
        xv = frac_vals(rng, allk)
        grades = [g for g in range(alg.d + 1)]
        # pools of patterns with equal length: single grades g and d-g, plus literal sub-patterns of that length
        pool = []
        for g in grades:
            pool.append(('grade', (g,)))
        for _ in range(cfg.get('literal', 4)):
            n = rng.choice([len(alg.indices_for_grades[(g,)]) for g in grades])
            pool.append(('keys', tuple(rng.sample(range(N), n))))
        percat = {}

        def build(p):
            if p[0] == 'grade':
                return mv_from(alg, allk, list(xv)).grade(*p[1])
            return mv_from(alg, p[1], [xv[k] for k in p[1]])
        for rnd in range(cfg.get('rounds', 6)):
            order = list(pool)
            if rnd % 2:
                order.reverse()
            if rnd >= 4:
                rng.shuffle(order)
            for p in order:
                for name in job['ops']:
                    out['evaluations'] += 1
                    pats.add((json.dumps(cfg, sort_keys=True), p, name))
                    try:
                        a = build(p)
                        exp = O.nz(rules[name](fr.mv_to_ref(a)))
                        r = getattr(a, name)() if rnd % 2 else getattr(alg, name)(a)
                        got = O.nz(fr.mv_to_ref(r))
                        ok, err = O.eq(got, exp), None
                        del a, r
                    except Exception as e:
                        ok, err, got, exp = False, type(e).__name__ + ': ' + str(e)[:120], None, None
                    if not ok:
                        percat[name] = percat.get(name, 0) + 1
                        if percat[name] <= 3:
                            out['failures'].append({'config': cfg, 'op': name, 'round': rnd, 'operand': [p[0], list(p[1])],
                                                    'what': 'unary result on a freshly built operand differs from the blade-by-blade rule',
                                                    'got': str(got)[:200], 'expected': str(exp)[:200], 'error': err,
                                                    'history': f'rounds 0..{rnd} over the pool {[[q[0], list(q[1])] for q in pool]}'})
                gc.collect() if rnd == 3 else None
        # the same operand object before and after its coefficients were changed in place (multivectors are mutable: mv[i] = .., writes
        # into mv.values(), dragged points of the graph widget): an involution is a function of the coefficients the operand holds now
        import numpy as np
        for p in pool[:5]:
            for backing in ('list', 'ndarray'):
                for name in job['ops']:
                    out['evaluations'] += 1
                    try:
                        a = build(p)
                        if backing == 'ndarray':
                            a = mv_from(alg, a.keys(), [np.array([float(v), float(v) + 1.0]) for v in a.values()])
                        first = getattr(a, name)() if name != 'neg' else -a
                        if name == 'reverse':
                            first = ~a
                        if backing == 'list':
                            vals = a.values()
                            for i_ in range(len(vals)):
                                vals[i_] = vals[i_] * 3 + 1
                            cur = O.nz(fr.mv_to_ref(a))
                            second = (~a if name == 'reverse' else -a if name == 'neg' else getattr(a, name)())
                            got = O.nz(fr.mv_to_ref(second))
                        else:
                            a[1] = [float(10 + i_) for i_ in range(len(a.keys()))]
                            el = mv_from(alg, a.keys(), [float(v[1]) for v in a.values()])
                            cur = O.nz(fr.mv_to_ref(el))
                            second = (~a if name == 'reverse' else -a if name == 'neg' else getattr(a, name)())
                            got = O.nz(fr.mv_to_ref(mv_from(alg, second.keys(), [float(v[1]) for v in second.values()])))
                        exp = O.nz(rules[name](cur))
                        ok, err = O.eq(got, exp), None
                    except Exception as e:
                        ok, err, got, exp = False, type(e).__name__ + ': ' + str(e)[:120], None, None
                    if not ok:
                        percat[(name, 'inplace')] = percat.get((name, 'inplace'), 0) + 1
                        if percat[(name, 'inplace')] <= 3:
                            out['failures'].append({'config': cfg, 'op': name, 'operand': [p[0], list(p[1])], 'backing': backing,
                                                    'what': 'unary result after an in-place update of the operand does not reflect its current coefficients',
                                                    'history': 'op(a); update the coefficients of a in place; op(a)', 'got': str(got)[:200], 'expected': str(exp)[:200], 'error': err})
        if len(out['samples']) < 3:
            out['samples'].append({'config': cfg, 'pool': [[q[0], list(q[1])] for q in pool], 'rounds': cfg.get('rounds', 6)})
    out['distinct'] = len(pats)
    return out


# ------------------------------------------------------------------ C09: the same operand objects before and after an in-place update
def job_inplace_history(job):
    """op(a, b); the coefficients of a are changed in place (writes into a.values(), a[i] = ..); op(a, b) again: the second value
    must equal what a freshly created algebra returns for fresh operands holding the current coefficients."""
    import numpy as np
    import warnings
    from standins import oracle as O
    from standins.native import make_algebra, mv_from, frac_vals
    from standins.jobs5 import _eqtol
    rng = random.Random(job.get('seed', 0))
    out = {'evaluations': 0, 'failures': [], 'samples': [], 'configs': 0}
    unary = ['normsq', 'norm', 'normalized', 'reverse', 'involute', 'conjugate', 'neg', 'hodge', 'inv', 'sqrt']
    binary = ['gp', 'add', 'sub', 'sw', 'proj', 'op', 'ip', 'div']
    pats = set()
    percat = {}
    for cfg in job['configs']:
        alg = make_algebra(cfg)
        fr = O.Frame(alg)
        out['configs'] += 1
        N = 2 ** alg.d
        for it in range(cfg.get('random', 4)):
            ak = tuple(alg.indices_for_grades[(1,)]) if it % 2 == 0 else tuple(sorted(rng.sample(range(N), rng.randint(1, min(N, 4)))))
            bk = tuple(sorted(rng.sample(range(N), rng.randint(1, min(N, 3)))))
            for name in unary + binary:
                for backing in ('list', 'ndarray'):
                    out['evaluations'] += 1
                    pats.add((json.dumps(cfg, sort_keys=True), name, ak, bk))
                    av, bv = [float(rng.randint(1, 6)) for _ in ak], [float(rng.randint(1, 6)) for _ in bk]
                    if name == 'sqrt':
                        ak_, av_ = (0,), [4.0]
                    else:
                        ak_, av_ = ak, av

                    def run(A, a, b):
                        # the method form (what users write; per-object memos live there) and the algebra-level form
                        if name == 'neg':
                            return -a
                        if hasattr(a, name):
                            r_ = getattr(a, name)(b) if name in binary else getattr(a, name)()
                            if A is alg:
                                f = getattr(A, name, None)
                                if f is not None:
                                    f(a, b) if name in binary else f(a)
                            return r_
                        f = getattr(A, name)
                        return f(a, b) if name in binary else f(a)

                    def tod(mv, j=None):
                        return O.nz(fr.to_ref(mv.keys(), [(v[j] if j is not None else v) for v in mv.values()])) if len(mv.keys()) else {}
                    cur = None
                    with warnings.catch_warnings():
                        warnings.simplefilter('ignore')
                        try:
                            if backing == 'list':
                                a, b = mv_from(alg, ak_, list(av_)), mv_from(alg, bk, list(bv))
                                try:
                                    run(alg, a, b)
                                except Exception:
                                    pass            # an earlier call that fails is a history like any other
                                vals = a.values()
                                for i_ in range(len(vals)):
                                    vals[i_] = vals[i_] * 2 + 1
                                cur = list(vals)
                                got = ('value', tod(run(alg, a, b)))
                            else:
                                a = mv_from(alg, ak_, [np.array([v, v + 1.0]) for v in av_])
                                b = mv_from(alg, bk, [np.array([v, v + 2.0]) for v in bv])
                                try:
                                    run(alg, a, b)
                                except Exception:
                                    pass
                                a[1] = [float(7 + i_) for i_ in range(len(ak_))]
                                cur = [float(v[1]) for v in a.values()]
                                got = ('value', tod(run(alg, a, b), 1))
                        except Exception as e:
                            got = ('raise', type(e).__name__)
                        try:
                            fresh = make_algebra(cfg)
                            if backing == 'list':
                                exp = ('value', tod(run(fresh, mv_from(fresh, ak_, list(cur)), mv_from(fresh, bk, list(bv)))))
                            else:
                                # fresh operands of the same kind (arrays of the same shape holding the current coefficients): what numpy
                                # does with e.g. the root of a negative entry is the same on both sides
                                fa = mv_from(fresh, ak_, [np.array(v, dtype=float).copy() for v in a.values()])
                                fb = mv_from(fresh, bk, [np.array([v, v + 2.0]) for v in bv])
                                exp = ('value', tod(run(fresh, fa, fb), 1))
                        except Exception as e:
                            exp = ('raise', type(e).__name__)

                    def same_(A_, B_):
                        if _eqtol(A_, B_):
                            return True
                        try:        # nan on both sides at the same blades counts as equal
                            return set(A_) == set(B_) and all((A_[k] != A_[k] and B_[k] != B_[k]) or _eqtol({0: A_[k]}, {0: B_[k]}) for k in A_)
                        except Exception:
                            return False
                    ok = got[0] == exp[0] and (got[0] == 'raise' or same_(got[1], exp[1]))
                    if not ok:
                        percat[name] = percat.get(name, 0) + 1
                        if percat[name] <= 3:
                            out['failures'].append({'config': cfg, 'op': name, 'backing': backing, 'a_keys': list(ak_), 'b_keys': list(bk),
                                                    'what': 'result after an in-place update of the operand differs from a fresh algebra on the current coefficients',
                                                    'history': 'op(a, b); coefficients of a changed in place; op(a, b)', 'got': str(got)[:200], 'expected': str(exp)[:200]})
        # calling a symbolic multivector before and after one of its coefficients was replaced in place
        import sympy
        for it in range(2):
            out['evaluations'] += 1
            ck = tuple(sorted(rng.sample(range(N), min(N, 3))))
            t_ = sympy.Symbol('t')
            try:
                x = mv_from(alg, ck, [t_] + [2] * (len(ck) - 1))
                x(t=3)
                x.values()[-1] = 5 if len(ck) > 1 else 2 * t_
                got = O.nz(fr.mv_to_ref(x(t=3)))
                fresh = make_algebra(cfg)
                exp = O.nz(fr.mv_to_ref(mv_from(fresh, ck, list(x.values()))(t=3)))
                ok = O.eq(got, exp)
            except Exception as e:
                ok, got, exp = False, type(e).__name__ + ': ' + str(e)[:100], None
            if not ok and percat.get('call', 0) < 3:
                percat['call'] = percat.get('call', 0) + 1
                out['failures'].append({'config': cfg, 'op': 'call', 'a_keys': list(ck),
                                        'what': 'calling a symbolic multivector after an in-place update of a coefficient returns the value of the earlier call',
                                        'history': 'x(t=3); x.values()[-1] = 5; x(t=3)', 'got': str(got)[:200], 'expected': str(exp)[:200]})
        if len(out['samples']) < 3:
            out['samples'].append({'config': cfg, 'a_keys': list(ak), 'b_keys': list(bk)})
    out['distinct'] = len(pats)
    return out


# ------------------------------------------------------------------ C03 / C02: a plain number as the other operand of the named product methods
def job_number_methods(job):
    """x.op(c), x.lc(c), .. and alg.lc(c, x), .. with a plain int / float / Fraction c: the number is the scalar multivector c, so the result
    is the product of x with that scalar as the product's grade rule defines it (x.lc(c) keeps only the scalar part of x, c.lc(x) is c*x)."""
    from standins import oracle as O
    from standins.native import make_algebra, mv_from, frac_vals, showmv, ref_binary, rand_keys
    rng = random.Random(job.get('seed', 0))
    out = {'evaluations': 0, 'failures': [], 'samples': [], 'configs': 0}
    pats = set()
    percat = {}
    for cfg in job['configs']:
        alg = make_algebra(cfg)
        fr = O.Frame(alg)
        out['configs'] += 1
        N = 2 ** alg.d
        for it in range(cfg.get('random', 4)):
            ks = tuple(range(N)) if it == 0 else tuple(rand_keys(rng, alg, rng.choice(['sparse', 'perm', 'grade'])) or (1,))
            vs = frac_vals(rng, ks)
            A = O.nz(fr.to_ref(ks, vs))
            for c in (rng.randint(2, 5), -1, 0.5, F(rng.randint(1, 5), 3)):
                C = {0: c}
                for name in job['ops']:
                    for form in ('x.method(c)', 'alg.op(x, c)', 'alg.op(c, x)'):
                        out['evaluations'] += 1
                        pats.add((json.dumps(cfg, sort_keys=True), name, ks, form))
                        x = mv_from(alg, ks, list(vs))
                        try:
                            if form == 'x.method(c)':
                                r = getattr(x, name)(c)
                                exp = ref_binary(fr, name, A, C)
                            elif form == 'alg.op(x, c)':
                                r = getattr(alg, name)(x, c)
                                exp = ref_binary(fr, name, A, C)
                            else:
                                r = getattr(alg, name)(c, x)
                                exp = ref_binary(fr, name, C, A)
                            got = O.nz(fr.mv_to_ref(r))
                            ok, err = O.eq(got, O.nz(exp)), None
                        except Exception as e:
                            ok, err, got, exp = False, type(e).__name__ + ': ' + str(e)[:100], None, None
                        if not ok:
                            percat[(name, form)] = percat.get((name, form), 0) + 1
                            if percat[(name, form)] <= 2:
                                out['failures'].append({'config': cfg, 'op': name, 'form': form, 'x': showmv(ks, vs), 'number': repr(c),
                                                        'what': 'product with a plain number differs from the product with the scalar multivector of that value',
                                                        'got': str(got)[:200], 'expected': str(exp)[:200], 'error': err})
        if len(out['samples']) < 3:
            out['samples'].append({'config': cfg, 'x_keys': list(ks)})
    out['distinct'] = len(pats)
    return out


# ------------------------------------------------------------------ C13: one wrapper object shared by several algebras in one process
def job_wrapper_twins(job):
    """Users hand the same decorator (numba.njit, ...) to every algebra they build.  For each group of signatures with equal
    (p, q, r) but different generator order, built one after the other in this process with ONE pass-through wrapper object:
    every operator on fixed Fraction operands must return the element the algebra of the same signature without a wrapper returns
    (they differ only in an option).  Deterministic; no oracle besides the unwrapped run of the same code."""
    import functools
    from kingdon import Algebra
    from kingdon.multivector import MultiVector
    out = {'evaluations': 0, 'failures': [], 'samples': [], 'configs': 0}

    def passthrough(f):
        @functools.wraps(f)
        def inner(*a, **k):
            return f(*a, **k)
        return inner

    def outcome(thunk):
        try:
            r = thunk()
        except Exception as e:      # the same exception type from both algebras counts as equal behaviour
            return ('raises', type(e).__name__)
        if isinstance(r, MultiVector):
            return ('value', {k: v for k, v in zip(r.keys(), r.values())})
        return ('value', r)

    binary = ['gp', 'ip', 'op', 'sp', 'lc', 'rc', 'cp', 'acp', 'add', 'sub', 'rp', 'sw', 'proj', 'div']
    unary = ['reverse', 'involute', 'conjugate', 'normsq', 'inv', 'neg', 'hodge', 'unhodge']
    for group in job['groups']:
        for sig in group:
            out['configs'] += 1
            plain, wrapped = Algebra(signature=list(sig)), Algebra(signature=list(sig), wrapper=passthrough)
            N = 2 ** plain.d
            pats = [tuple(plain.indices_for_grades[(1,)]), tuple(range(N)), tuple(plain.indices_for_grades[(0, 2)] if plain.d >= 2 else (0,))]
            for ai, ak in enumerate(pats):
                for bk in pats[:2]:
                    av = [F(2 + 3 * i + ai, 1 + (i % 3)) for i in range(len(ak))]
                    bv = [F(5 + 2 * i, 2 + (i % 2)) for i in range(len(bk))]
                    for name in binary + unary:
                        res = []
                        for alg in (plain, wrapped):
                            a = MultiVector.fromkeysvalues(alg, ak, list(av))
                            b = MultiVector.fromkeysvalues(alg, bk, list(bv))
                            op = getattr(alg, name)
                            res.append(outcome((lambda: op(a, b)) if name in binary else (lambda: op(a))))
                        out['evaluations'] += 1
                        if res[0] != res[1] and len(out['failures']) < 6:
                            out['failures'].append({'what': 'an algebra with a pass-through wrapper (one wrapper object shared with the algebras built before it) '
                                                            'returns another element than the same algebra without a wrapper',
                                                    'signature': list(sig), 'built_before': [list(s) for s in group[:group.index(sig)]],
                                                    'operator': name, 'a_keys': list(ak), 'b_keys': list(bk),
                                                    'a_values': [str(x) for x in av], 'b_values': [str(x) for x in bv],
                                                    'got': str(res[1])[:200], 'expected': str(res[0])[:200]})
            if len(out['samples']) < 3:
                out['samples'].append({'signature': list(sig)})
    return out
