"""Stand-in jobs: construction/access round trip (C15), custom-basis relabelling (C14), options (C13), symbolic (C12)."""
import itertools
import random
import json
from fractions import Fraction as F

from standins import oracle as O
from standins.oracle import Poly
from standins.native import (make_algebra, mv_from, todict, showmv, ref_binary, ref_unary, BINARY, UNARY, rand_keys, frac_vals, poly_vals)


def _safe(f):
    try:
        return ('value', f())
    except ZeroDivisionError:
        return ('raise', 'ZeroDivisionError')
    except Exception as e:
        return ('raise', type(e).__name__ + ':' + str(e)[:100])


def _perm_parity(p):
    p = list(p)
    s = 0
    for i in range(len(p)):
        for j in range(i + 1, len(p)):
            if p[i] > p[j]:
                s += 1
    return s % 2


def job_roundtrip(job):
    """However a multivector is built, reading it back reflects exactly the supplied coefficients."""
    from kingdon.multivector import MultiVector
    rng = random.Random(job.get('seed', 0))
    out = {'evaluations': 0, 'failures': [], 'samples': [], 'configs': 0}
    forms = set()

    def fail(rec):
        if len(out['failures']) < 400:
            out['failures'].append(rec)
    for cfg in job['configs']:
        try:
            alg = make_algebra(cfg)
        except Exception as _e:
            out['failures'].append({'config': cfg, 'what': 'constructing an admissible algebra raised', 'error': type(_e).__name__ + ': ' + str(_e)[:150]})
            continue
        fr = O.Frame(alg)
        out['configs'] += 1
        N = 2 ** alg.d
        names = alg.bin2canon
        for it in range(cfg.get('random', 10)):
            if cfg.get('graded'):
                gs = tuple(sorted(rng.sample(range(alg.d + 1), rng.randint(1, min(2, alg.d + 1)))))
                ks = tuple(alg.indices_for_grades[gs])
            else:
                ks = rand_keys(rng, alg, rng.choice(['sparse', 'perm', 'grade'])) or (0,)
            vs = [Poly.var(f'x{k}') for k in ks]
            supplied = dict(zip(ks, vs))

            def spellings(K):
                """a random spelling of blade K: (name, sign relative to the canonical name)"""
                nm = names[K]
                chars = list(nm[1:])
                perm = list(range(len(chars)))
                rng.shuffle(perm)
                sp = 'e' + ''.join(chars[i] for i in perm)
                return sp, (-1 if _perm_parity(perm) else 1)
            builds = {
                'keys+values': lambda: alg.multivector(keys=ks, values=list(vs)),
                'names+values': lambda: alg.multivector(keys=tuple(names[k] for k in ks), values=list(vs)),
                'mapping': lambda: alg.multivector(dict(zip(ks, vs))),
                'mapping-names': lambda: alg.multivector({names[k]: v for k, v in zip(ks, vs)}),
                'keywords': lambda: alg.multivector(**{names[k]: v for k, v in zip(ks, vs)}),
                'fromkeysvalues': lambda: MultiVector.fromkeysvalues(alg, tuple(ks), list(vs)),
            }
            for form, b in builds.items():
                forms.add((json.dumps(cfg, sort_keys=True), form, ks))
                out['evaluations'] += 1
                got = _safe(b)
                if got[0] != 'value':
                    fail({'config': cfg, 'form': form, 'what': 'construction raised on consistent input', 'keys': list(ks), 'error': got[1]})
                    continue
                m = got[1]
                # items()/keys()/values()
                if dict(zip(m.keys(), m.values())) != supplied or len(m.keys()) != len(set(m.keys())):
                    fail({'config': cfg, 'form': form, 'what': 'items() differ from the supplied coefficients', 'keys': list(ks),
                          'got': str(dict(zip(m.keys(), m.values())))[:200]})
                for K in range(N) if N <= 16 else rng.sample(range(N), 16):
                    exp = supplied.get(K, 0)
                    sp, sg = spellings(K)
                    g1 = getattr(m, names[K])
                    g2 = getattr(m, sp)
                    if not O.iszero(g1 - exp) or not O.iszero(g2 - sg * exp):
                        fail({'config': cfg, 'form': form, 'what': 'attribute access differs', 'blade': names[K], 'spelling': sp,
                              'got': [str(g1), str(g2)], 'expected': [str(exp), str(sg * exp)], 'keys': list(ks)})
                    if (K in m) != (K in supplied) or (names[K] in m) != (K in supplied):
                        fail({'config': cfg, 'form': form, 'what': 'containment differs', 'blade': names[K], 'keys': list(ks)})
                # keyword blades with permuted spellings
                kw = {}
                expk = {}
                spk = {}
                for K in ks:
                    sp, sg = spellings(K)
                    if sp in kw:
                        continue
                    kw[sp] = supplied[K]
                    expk[K] = sg * supplied[K]
                    spk[K] = (sp, sg)
                got = _safe(lambda: alg.multivector(**kw))
                out['evaluations'] += 1
                if got[0] != 'value' or not O.eq(dict(zip(got[1].keys(), got[1].values())), expk):
                    fail({'config': cfg, 'form': 'keywords-permuted', 'what': 'permuted keyword blades dropped or mis-signed', 'kwargs': {k: str(v) for k, v in kw.items()},
                          'got': str(got)[:200], 'expected': {str(k): str(v) for k, v in expk.items()}})
                # the same permuted spellings as keys of a mapping and as keys= names: a route that accepts them must apply the sign of the
                # spelling (a route that rejects them raises; either is consistent with the statement, a silently unsigned value is not)
                for route in ('mapping', 'keys'):
                    out['evaluations'] += 1
                    got3 = _safe((lambda: alg.multivector(dict(kw))) if route == 'mapping' else (lambda: alg.multivector(keys=tuple(kw), values=list(kw.values()))))
                    if got3[0] == 'value' and not O.eq(dict(zip(got3[1].keys(), got3[1].values())), expk):
                        fail({'config': cfg, 'form': route + '-permuted-names', 'what': 'permuted blade names accepted as keys but the coefficients were dropped or mis-signed',
                              'names': {k: str(v) for k, v in kw.items()}, 'got': str(got3)[:200], 'expected': {str(k): str(v) for k, v in expk.items()}})
                # the same keyword blades again on the same algebra, in another order and with other values (a keyword argument is
                # identified by its name, never by its position or by what an earlier call with these names did)
                if len(kw) >= 2:
                    items_ = list(kw.items())
                    for order in (list(reversed(items_)), items_[1:] + items_[:1]):
                        kw2 = {sp_: v_ * 3 + 1 for sp_, v_ in order}
                        got2 = _safe(lambda: alg.multivector(**kw2))
                        out['evaluations'] += 1
                        exp2 = {K: sg_ * kw2[sp_] for K, (sp_, sg_) in spk.items()}       # per blade: sign of its spelling * the value given under that name
                        if got2[0] != 'value' or not O.eq(dict(zip(got2[1].keys(), got2[1].values())), exp2):
                            fail({'config': cfg, 'form': 'keywords-reordered', 'what': 'keyword blades given in another order than in an earlier call were paired with the wrong values',
                                  'first_call': {k: str(v) for k, v in kw.items()}, 'kwargs': {k: str(v) for k, v in kw2.items()},
                                  'got': str(got2)[:200], 'expected': {str(k): str(v) for k, v in exp2.items()}})
                # grade(), asfullmv(), map(), filter()
                for gsel in [(g,) for g in range(alg.d + 1)] + [tuple(range(alg.d + 1))]:
                    gm = m.grade(*gsel)
                    exp = {k: v for k, v in supplied.items() if bin(k).count('1') in gsel}
                    if dict(zip(gm.keys(), gm.values())) != exp:
                        fail({'config': cfg, 'form': form, 'what': 'grade() differs', 'grades': list(gsel), 'keys': list(ks)})
                for canonical in (True, False):
                    fm = m.asfullmv(canonical=canonical)
                    expk2 = tuple(alg.canon2bin.values()) if canonical else tuple(range(N))
                    if tuple(fm.keys()) != expk2 or any(not O.iszero(v - supplied.get(k, 0)) for k, v in zip(fm.keys(), fm.values())):
                        fail({'config': cfg, 'form': form, 'what': 'asfullmv() differs', 'canonical': canonical, 'keys': list(ks)})
                mm = m.map(lambda v: 2 * v)
                if dict(zip(mm.keys(), mm.values())) != {k: 2 * v for k, v in supplied.items()}:
                    fail({'config': cfg, 'form': form, 'what': 'map() differs', 'keys': list(ks)})
                sel = set(rng.sample(list(ks), len(ks) // 2))
                fm2 = m.filter(lambda k, v: k in sel)
                if dict(zip(fm2.keys(), fm2.values())) != {k: v for k, v in supplied.items() if k in sel}:
                    fail({'config': cfg, 'form': form, 'what': 'filter() differs', 'keys': list(ks)})
                # the part that filter() keeps is a multivector like any other (in graded mode it stores incomplete grades): accessors
                # on it read exactly the blades it stores
                kept = {k: v for k, v in supplied.items() if k in sel}
                for K in range(N) if N <= 16 else rng.sample(range(N), 16):
                    g3 = _safe(lambda: getattr(fm2, names[K]))
                    if g3[0] != 'value' or not O.iszero(g3[1] - kept.get(K, 0)):
                        fail({'config': cfg, 'form': form + ' -> filter()', 'what': 'attribute access on a filtered multivector differs', 'blade': names[K],
                              'stored_keys': list(fm2.keys()), 'got': str(g3)[:120], 'expected': str(kept.get(K, 0))})
                        break
                gg = _safe(lambda: fm2.grade(*range(alg.d + 1)))
                if gg[0] != 'value' or dict(zip(gg[1].keys(), gg[1].values())) != kept:
                    fail({'config': cfg, 'form': form + ' -> filter()', 'what': 'grade() on a filtered multivector differs', 'stored_keys': list(fm2.keys())})
            # graded mode: complete grades given in another order either raise or are stored blade-correctly
            if cfg.get('graded') and len(ks) > 1:
                perm = list(range(len(ks)))
                rng.shuffle(perm)
                pk, pv = tuple(ks[i] for i in perm), [vs[i] for i in perm]
                out['evaluations'] += 1
                got = _safe(lambda: alg.multivector(keys=pk, values=list(pv)))
                if got[0] == 'value' and dict(zip(got[1].keys(), got[1].values())) != supplied:
                    fail({'config': cfg, 'form': 'graded keys+values, complete grades in another order', 'what': 'coefficients attached to other blades than supplied',
                          'keys': list(pk), 'got': str(dict(zip(got[1].keys(), got[1].values())))[:200]})
            # inconsistent input raises
            bad = {
                'length mismatch': lambda: alg.multivector(keys=ks, values=list(vs) + [1]),
                'keys outside grades': lambda: alg.multivector(keys=ks, values=list(vs), grades=tuple(g for g in range(alg.d + 1) if g not in {bin(k).count('1') for k in ks})[:1] or (alg.d + 5,)),
                'invalid grades': lambda: alg.multivector(keys=ks, values=list(vs), grades=(alg.d + 1,)),
            }
            if cfg.get('graded'):
                gc = {}
                for k in ks:
                    gc.setdefault(bin(k).count('1'), []).append(k)
                multi = [g for g, l in gc.items() if len(l) >= 2]
                if multi:
                    drop = gc[multi[0]][0]
                    ks2 = tuple(k for k in ks if k != drop)
                    bad['incomplete grades in graded mode'] = lambda: alg.multivector(keys=ks2, values=[supplied[k] for k in ks2])
            for what, b in bad.items():
                out['evaluations'] += 1
                got = _safe(b)
                if got[0] == 'value':
                    fail({'config': cfg, 'what': f'inconsistent input ({what}) produced a multivector', 'keys': list(ks)})
            if len(out['samples']) < 3:
                out['samples'].append({'config': cfg, 'keys': list(ks), 'forms': sorted(builds) + ['keywords-permuted']})
    out['distinct'] = len(forms)
    return out
